// place in: v1/services/storage
package storage

import (
	"context"
	"fmt"
	"testing"

	"github.com/influxdata/influxdb/v2/models"
	"github.com/influxdata/influxdb/v2/storage/reads"
	"github.com/influxdata/influxdb/v2/tsdb"
	"github.com/influxdata/influxdb/v2/tsdb/cursors"
	"github.com/influxdata/influxql"
)

// demoW4C21SeriesCursor is a tsdb.SeriesCursor over a fixed list of series.
type demoW4C21SeriesCursor struct {
	rows []tsdb.SeriesCursorRow
}

func (c *demoW4C21SeriesCursor) Close() error { return nil }
func (c *demoW4C21SeriesCursor) Next() (*tsdb.SeriesCursorRow, error) {
	if len(c.rows) == 0 {
		return nil, nil
	}
	r := &c.rows[0]
	c.rows = c.rows[1:]
	return r, nil
}

// demoW4C21Shard is a cursors.CursorIterator: every series has the same points in this shard.
type demoW4C21Shard struct {
	ts []int64
	vs []int64
}

func (s *demoW4C21Shard) Stats() cursors.CursorStats { return cursors.CursorStats{} }
func (s *demoW4C21Shard) Next(ctx context.Context, r *cursors.CursorRequest) (cursors.Cursor, error) {
	return &demoW4C21IntCursor{a: &cursors.IntegerArray{
		Timestamps: append([]int64(nil), s.ts...),
		Values:     append([]int64(nil), s.vs...),
	}}, nil
}

type demoW4C21IntCursor struct {
	a *cursors.IntegerArray
}

func (c *demoW4C21IntCursor) Close()                     {}
func (c *demoW4C21IntCursor) Err() error                 { return nil }
func (c *demoW4C21IntCursor) Stats() cursors.CursorStats { return cursors.CursorStats{} }
func (c *demoW4C21IntCursor) Next() *cursors.IntegerArray {
	if c.a != nil {
		a := c.a
		c.a = nil
		return a
	}
	return &cursors.IntegerArray{}
}

func demoW4C21Cursor(t *testing.T, predicate string, nshards int, hosts ...string) *indexSeriesCursor {
	t.Helper()
	cond, err := influxql.ParseExpr(predicate)
	if err != nil {
		t.Fatal(err)
	}

	shards := cursors.CursorIterators{
		&demoW4C21Shard{ts: []int64{1, 2, 3}, vs: []int64{1, 10, 3}},
		&demoW4C21Shard{ts: []int64{11, 12, 13}, vs: []int64{2, 20, 4}},
	}[:nshards]

	var rows []tsdb.SeriesCursorRow
	for _, h := range hosts {
		rows = append(rows, tsdb.SeriesCursorRow{
			Name: []byte("cpu"),
			Tags: models.NewTags(map[string]string{"host": h}),
		})
	}

	// Built exactly as newIndexSeriesCursorInfluxQLPred does, over fake shards.
	c := &indexSeriesCursor{row: reads.SeriesRow{Query: shards}}
	c.cond = cond
	c.hasFieldExpr, c.hasValueExpr = HasFieldKeyOrValue(c.cond)
	c.measurementCond = influxql.Reduce(reads.RewriteExprRemoveFieldValue(influxql.CloneExpr(c.cond)), nil)
	if reads.IsTrueBooleanLiteral(c.measurementCond) {
		c.measurementCond = nil
	}
	c.fields = measurementFields{"cpu": []field{{n: "v", nb: []byte("v")}}}
	c.sqry = &demoW4C21SeriesCursor{rows: rows}
	return c
}

func demoW4C21Read(t *testing.T, c *indexSeriesCursor) map[string]string {
	t.Helper()
	got := map[string]string{}
	rs := reads.NewFilteredResultSet(context.Background(), 0, 100, c)
	defer rs.Close()
	for rs.Next() {
		cur := rs.Cursor()
		if cur == nil {
			continue
		}
		ic, ok := cur.(cursors.IntegerArrayCursor)
		if !ok {
			t.Fatalf("unexpected cursor type %T", cur)
		}
		var pts string
		for {
			a := ic.Next()
			if a.Len() == 0 {
				break
			}
			for i := range a.Timestamps {
				pts += fmt.Sprintf("%d=%d ", a.Timestamps[i], a.Values[i])
			}
		}
		ic.Close()
		key := string(rs.Tags().Get([]byte("host")))
		if _, dup := got[key]; dup {
			t.Fatalf("series %q returned twice", key)
		}
		got[key] = pts
	}
	return got
}

// A value condition that only applies to host=a must not filter the points of host=b,
// whatever the order in which the two series are visited.
//
// NOTE: the case "conditional series first" reads ONE shard only. With two shards the
// unchanged tree already loses points of host=b in the second shard (the multi-shard array
// cursor keeps the value filter of the previous series: reset() with a nil condition leaves
// c.filter set and nextArrayCursor() applies it), so that layout cannot discriminate.
func TestDemoW4C21ValueCondPerSeries(t *testing.T) {
	const pred = `("host"::tag = 'a' AND "$" > 5) OR "host"::tag = 'b'`
	all := []string{"", "1=1 2=10 3=3 ", "1=1 2=10 3=3 11=2 12=20 13=4 "}
	big := []string{"", "2=10 ", "2=10 12=20 "}

	for _, tc := range []struct {
		name    string
		nshards int
		hosts   []string
	}{
		{"unconditional series first", 2, []string{"b", "a"}},
		{"conditional series first", 2, []string{"a", "b"}},
		{"conditional series first, three series", 1, []string{"a", "b", "c"}},
		{"only unconditional", 2, []string{"b"}},
	} {
		t.Run(tc.name, func(t *testing.T) {
			got := demoW4C21Read(t, demoW4C21Cursor(t, pred, tc.nshards, tc.hosts...))
			n := 0
			for _, h := range tc.hosts {
				var exp string
				switch h {
				case "a":
					exp = big[tc.nshards]
				case "b":
					exp = all[tc.nshards]
				default:
					// matches neither branch of the predicate: no points
					// (the series may be returned with an always-false filter)
					if got[h] != "" {
						t.Errorf("host=%s: got points %q, expected none", h, got[h])
					}
					continue
				}
				n++
				if got[h] != exp {
					t.Errorf("host=%s: got points %q, expected %q", h, got[h], exp)
				}
			}
			if len(got) < n {
				t.Errorf("got %d series, expected at least %d", len(got), n)
			}
		})
	}
}
